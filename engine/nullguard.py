# -*- coding: utf-8 -*-
"""
E9 (null-belief part) - "contradictory beliefs" analysis (Engler et al.).

A value is *believed nullable* when the code itself tests it against None
/ truthiness somewhere (or initialises it to None, or obtains it from a
function whose result is tested somewhere).  Every dereference of such a
value (attribute access, subscript) must be dominated by a guard on the
same expression.  Flow-sensitive over the statement structure with
short-circuit evaluation; facts are killed by assignments and by calls of
methods on the same receiver.
"""
from __future__ import annotations

import ast


def text(e):
    return ast.unparse(e)


def is_ref(e):
    """Name or attribute chain rooted at a Name"""
    while isinstance(e, ast.Attribute):
        e = e.value
    return isinstance(e, ast.Name)


def implied_true(t):
    out = set()
    if is_ref(t):
        out.add(text(t))
    elif isinstance(t, ast.Compare) and len(t.ops) == 1:
        op = t.ops[0]
        c = t.comparators[0]
        if isinstance(op, (ast.IsNot, ast.NotEq)) and isinstance(
                c, ast.Constant) and c.value is None and is_ref(t.left):
            out.add(text(t.left))
    elif isinstance(t, ast.BoolOp) and isinstance(t.op, ast.And):
        for v in t.values:
            out |= implied_true(v)
    elif isinstance(t, ast.UnaryOp) and isinstance(t.op, ast.Not):
        out |= implied_false(t.operand)
    elif isinstance(t, ast.Call) and isinstance(t.func, ast.Name) and \
            t.func.id == 'isinstance' and t.args and is_ref(t.args[0]):
        out.add(text(t.args[0]))
    return out


def implied_false(t):
    out = set()
    if isinstance(t, ast.Compare) and len(t.ops) == 1:
        op = t.ops[0]
        c = t.comparators[0]
        if isinstance(op, (ast.Is, ast.Eq)) and isinstance(
                c, ast.Constant) and c.value is None and is_ref(t.left):
            out.add(text(t.left))
    elif isinstance(t, ast.UnaryOp) and isinstance(t.op, ast.Not):
        out |= implied_true(t.operand)
    elif isinstance(t, ast.BoolOp) and isinstance(t.op, ast.Or):
        for v in t.values:
            out |= implied_false(v)
    return out


def null_tests(tree):
    """expression texts tested for None / truthiness anywhere in tree"""
    out = set()

    def from_test(t):
        if is_ref(t):
            out.add(text(t))
        elif isinstance(t, ast.Compare) and len(t.ops) == 1 and isinstance(
                t.ops[0], (ast.Is, ast.IsNot, ast.Eq, ast.NotEq)) and \
                isinstance(t.comparators[0], ast.Constant) and \
                t.comparators[0].value is None and is_ref(t.left):
            out.add(text(t.left))
        elif isinstance(t, ast.BoolOp):
            for v in t.values:
                from_test(v)
        elif isinstance(t, ast.UnaryOp) and isinstance(t.op, ast.Not):
            from_test(t.operand)
    for n in ast.walk(tree):
        if isinstance(n, (ast.If, ast.While, ast.IfExp)):
            from_test(n.test)
        elif isinstance(n, ast.BoolOp):
            # `a and a.b`, `x or y`: operands except the last are tested
            for v in n.values[:-1]:
                from_test(v)
        elif isinstance(n, ast.comprehension):
            for c in n.ifs:
                from_test(c)
        elif isinstance(n, ast.Assert):
            from_test(n.test)
    return out


class Analyzer(object):

    def __init__(self, fdef, is_nullable, nonnull_calls=(),
                 nullable_calls=(), method_writes=None,
                 none_only_for_none=()):
        self.fdef = fdef
        self.is_nullable = is_nullable      # text -> bool
        self.nonnull_calls = set(nonnull_calls)
        self.nullable_calls = set(nullable_calls)
        # method name -> set of self attributes it may (transitively)
        # assign; None: unknown, a call kills every fact on the receiver
        self.method_writes = method_writes
        # callee names f with the summary "f(x) is None only if x is not
        # None" (f(None) is never None): after
        #   r = obj.f(x); if r is not None: <exit>
        # x is known not to be None
        self.none_only_for_none = set(none_only_for_none)
        self.derived = {}
        self.sites = []

    def run(self):
        self.block(self.fdef.body, set())
        return self.sites

    # -- expressions -----------------------------------------------------

    def deref(self, base, node, facts):
        if not is_ref(base):
            return
        t = text(base)
        if self.is_nullable(t) and t not in facts:
            self.sites.append((node, t))

    def expr(self, e, facts):
        """check dereferences inside e under facts"""
        if e is None:
            return
        if isinstance(e, ast.BoolOp):
            cur = set(facts)
            for v in e.values:
                self.expr(v, cur)
                if isinstance(e.op, ast.And):
                    cur |= implied_true(v)
                else:
                    cur |= implied_false(v)
            return
        if isinstance(e, ast.IfExp):
            self.expr(e.test, facts)
            self.expr(e.body, facts | implied_true(e.test))
            self.expr(e.orelse, facts | implied_false(e.test))
            return
        if isinstance(e, (ast.ListComp, ast.SetComp, ast.GeneratorExp,
                          ast.DictComp)):
            cur = set(facts)
            for g in e.generators:
                self.expr(g.iter, cur)
                for c in g.ifs:
                    self.expr(c, cur)
                    cur |= implied_true(c)
            if isinstance(e, ast.DictComp):
                self.expr(e.key, cur)
                self.expr(e.value, cur)
            else:
                self.expr(e.elt, cur)
            return
        if isinstance(e, ast.Attribute):
            self.deref(e.value, e, facts)
            self.expr(e.value, facts)
            return
        if isinstance(e, ast.Subscript):
            self.deref(e.value, e, facts)
            self.expr(e.value, facts)
            self.expr(e.slice, facts)
            return
        if isinstance(e, ast.Lambda):
            return
        for c in ast.iter_child_nodes(e):
            if isinstance(c, ast.expr):
                self.expr(c, facts)
            elif isinstance(c, (ast.keyword,)):
                self.expr(c.value, facts)
            elif isinstance(c, ast.Slice):
                for x in (c.lower, c.upper, c.step):
                    self.expr(x, facts)

    # -- statements ------------------------------------------------------

    def kill(self, facts, target):
        t = text(target)
        for f in list(facts):
            if f == t or f.startswith(t + '.') or f.startswith(t + '['):
                facts.discard(f)

    def kill_calls(self, e, facts):
        """a call of a method on receiver R may reassign R's fields; for
        methods of the analysed class the set of fields they may assign
        is known (method_writes)"""
        for n in ast.walk(e):
            if isinstance(n, ast.Call) and isinstance(
                    n.func, ast.Attribute) and is_ref(n.func.value):
                recv = text(n.func.value)
                writes = None
                if recv == 'self' and self.method_writes is not None:
                    writes = self.method_writes.get(n.func.attr)
                for f in list(facts):
                    if not f.startswith(recv + '.'):
                        continue
                    if writes is not None:
                        attr = f[len(recv) + 1:].split('.')[0].split('[')[0]
                        if attr not in writes:
                            continue
                    facts.discard(f)

    def assigned_in(self, stmts):
        out = []
        for st in stmts:
            for n in ast.walk(st):
                if isinstance(n, (ast.Assign, ast.AugAssign, ast.For)):
                    tg = n.targets if isinstance(n, ast.Assign) else [
                        n.target]
                    for t in tg:
                        for x in (t.elts if isinstance(t, ast.Tuple)
                                  else [t]):
                            out.append(x)
        return out

    def exits(self, stmts):
        if not stmts:
            return False
        last = stmts[-1]
        if isinstance(last, (ast.Return, ast.Raise, ast.Continue,
                             ast.Break)):
            return True
        if isinstance(last, ast.If):
            return self.exits(last.body) and self.exits(last.orelse)
        return False

    def block(self, stmts, facts):
        facts = set(facts)
        for st in stmts:
            facts = self.stmt(st, facts)
        return facts

    def stmt(self, st, facts):
        if isinstance(st, ast.If):
            self.expr(st.test, facts)
            tf = facts | implied_true(st.test)
            ff = facts | implied_false(st.test)
            self.kill_calls(st.test, tf)
            self.kill_calls(st.test, ff)
            tf |= implied_true(st.test)
            ff |= implied_false(st.test)
            a = self.block(st.body, tf)
            b = self.block(st.orelse, ff)
            ea, eb = self.exits(st.body), self.exits(st.orelse)
            if ea and not eb:
                # r = f(x); if r is not None: <exit>  =>  x is not None
                for r in implied_true(st.test):
                    if r in self.derived:
                        b = set(b) | {self.derived[r]}
            if ea and eb:
                return set(facts)
            if ea:
                return b
            if eb:
                return a
            return a & b
        if isinstance(st, (ast.While, ast.For)):
            inner = set(facts)
            for t in self.assigned_in(st.body):
                self.kill(inner, t)
            for s in st.body:
                self.kill_calls(s, inner)
            if isinstance(st, ast.While):
                self.expr(st.test, inner)
                inner |= implied_true(st.test)
            else:
                self.expr(st.iter, facts)
                self.kill(inner, st.target)
            self.block(st.body, inner)
            out = set(facts)
            for t in self.assigned_in(st.body):
                self.kill(out, t)
            for s in st.body:
                self.kill_calls(s, out)
            self.block(st.orelse, out)
            return out
        if isinstance(st, ast.Try):
            a = self.block(st.body, facts)
            base = set(facts)
            for t in self.assigned_in(st.body):
                self.kill(base, t)
            for s in st.body:
                self.kill_calls(s, base)
            outs = []
            if not self.exits(st.body):
                outs.append(self.block(st.orelse, a))
            for h in st.handlers:
                o = self.block(h.body, base)
                if not self.exits(h.body):
                    outs.append(o)
            res = set.intersection(*outs) if outs else set(base)
            res = self.block(st.finalbody, res)
            return res
        if isinstance(st, ast.Assign):
            self.expr(st.value, facts)
            facts = set(facts)
            self.kill_calls(st.value, facts)
            for t in st.targets:
                for x in (t.elts if isinstance(t, ast.Tuple) else [t]):
                    if isinstance(x, (ast.Attribute, ast.Subscript)):
                        # a store through a possibly-None base
                        self.deref(x.value, x, facts)
                        self.expr(x.value, facts)
                    self.kill(facts, x)
            for t in st.targets:
                tt_ = text(t)
                for r, x in list(self.derived.items()):
                    if r == tt_ or x == tt_ or x.startswith(tt_ + '.'):
                        del self.derived[r]
            if len(st.targets) == 1 and is_ref(st.targets[0]):
                tt = text(st.targets[0])
                v = st.value
                if self.value_nonnull(v, facts):
                    facts.add(tt)
                if isinstance(v, ast.Call) and text(v.func).split('.')[-1] \
                        in self.none_only_for_none and len(v.args) == 1 \
                        and not v.keywords and is_ref(v.args[0]):
                    self.derived[tt] = text(v.args[0])
                # chained `a = b = c`: handled by targets loop
            return facts
        if isinstance(st, ast.AugAssign):
            self.expr(st.value, facts)
            self.expr(st.target, facts)
            return facts
        if isinstance(st, (ast.Return, ast.Expr)):
            self.expr(st.value, facts)
            facts = set(facts)
            if st.value is not None:
                self.kill_calls(st.value, facts)
            return facts
        if isinstance(st, ast.Raise):
            self.expr(st.exc, facts)
            return facts
        if isinstance(st, ast.Assert):
            self.expr(st.test, facts)
            return facts | implied_true(st.test)
        if isinstance(st, (ast.FunctionDef, ast.ClassDef, ast.Pass,
                           ast.Global, ast.Nonlocal, ast.Import,
                           ast.ImportFrom, ast.Continue, ast.Break)):
            return facts
        if isinstance(st, ast.With):
            for item in st.items:
                self.expr(item.context_expr, facts)
            return self.block(st.body, facts)
        if isinstance(st, ast.Delete):
            return facts
        return facts

    def value_nonnull(self, v, facts):
        if isinstance(v, (ast.List, ast.Dict, ast.Set, ast.Tuple,
                          ast.JoinedStr)):
            return True
        if isinstance(v, ast.Constant):
            return v.value is not None
        if is_ref(v):
            t = text(v)
            return (not self.is_nullable(t)) or t in facts
        if isinstance(v, ast.BoolOp) and isinstance(v.op, ast.Or):
            return any(self.value_nonnull(x, facts) for x in v.values)
        if isinstance(v, ast.IfExp):
            return self.value_nonnull(v.body, facts | implied_true(v.test)) \
                and self.value_nonnull(v.orelse,
                                       facts | implied_false(v.test))
        if isinstance(v, ast.Call):
            f = text(v.func)
            if f in self.nonnull_calls:
                return True
            if isinstance(v.func, ast.Name) and v.func.id[:1].isupper():
                return True
            return f.split('.')[-1] not in self.nullable_calls
        return False
