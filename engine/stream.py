# -*- coding: utf-8 -*-
"""
Print grammar: the language of (token class | layout mark) streams that
the unparser can emit, derived from the definitions table (E5) and the
attribute typing of the action interpreter (E4), and its adjacency
analysis:

  windows(root) = { (tokA | START, run, tokB | END) }

where run is the tuple of layout marks (only those that have a handler in
the rule table under analysis) printed between two consecutive token
fragments.  Runs longer than 2*KEEP marks are abbreviated to their first
and last KEEP marks (they always contain a brace or a semicolon).

This is a FIRST/LAST/NULL fixpoint over the regular right-hand sides, i.e.
exact for the context-free print grammar; the only over-approximation is
the attribute typing (kinds per grammar nonterminal).
"""
from __future__ import annotations

from .common import AnalysisError
from .actions import AttrOf, Const, ListVal, NodeVal, Slot

KEEP = 5
DOTS = ('...', None, None)

# regex constructors ----------------------------------------------------


def seq(*items):
    out = []
    for it in items:
        if it is None:
            continue
        if it[0] == 'seq':
            out.extend(it[1])
        else:
            out.append(it)
    return ('seq', tuple(out))


def alt(*items):
    items = [i for i in items if i is not None]
    flat = []
    for it in items:
        if it[0] == 'alt':
            flat.extend(it[1])
        elif it not in flat:
            flat.append(it)
    if len(flat) == 1:
        return flat[0]
    return ('alt', tuple(flat))


EPS = ('seq', ())


def opt(r):
    return alt(r, EPS)


def star(r):
    return ('star', r)


def tok(cls):
    return ('tok', cls)


def mark(name, defname, role=None):
    return ('mark', (name, defname, role))


def ref(kind):
    return ('ref', kind)


def join_runs(a, b):
    r = tuple(a) + tuple(b)
    if len(r) <= 2 * KEEP:
        return r
    r = tuple(m for m in r if m != DOTS)
    return r[:KEEP] + (DOTS,) + r[-KEEP:]


class PrintGrammar(object):

    def __init__(self, M, handled, comments=False):
        """M: checks.shared.Models; handled: set of mark names that have a
        layout handler in the table under analysis; comments: whether
        comment nodes are printed"""
        self.M = M
        self.g = M.grammar
        self.A = M.actions
        self.D = M.definitions
        self.P = M.printer
        self.lm = M.lexmodel
        self.am = M.astmodel
        self.handled = set(handled)
        self.comments = comments
        self.attr_values = {}     # (cls, attr) -> values (nodes in trees)
        self.attr_values_all = {}  # ... including nodes that are consumed
        stored = self.stored_nonterminals()
        for oc in self.A.all_outcomes():
            if oc.status != 'ok':
                continue
            for node in oc.nodes:
                for attr, v in node.attrs.items():
                    self.attr_values_all.setdefault(
                        (node.cls, attr), []).append(v)
                    if oc.prod.lhs in stored or node is not oc.value:
                        self.attr_values.setdefault(
                            (node.cls, attr), []).append(v)
        self.kinds = sorted(set(k for k, _ in self.attr_values) |
                            self._all_built())
        self.rules = {}
        for k in self.kinds:
            for role in (None,):
                self.rules[k] = None
        self._build()

    def stored_nonterminals(self):
        """nonterminals whose value can end up in the tree as a node (an
        attribute value, a list element, or the root), as opposed to being
        consumed by the parent action (e.g. only `.value` is read)"""
        g, A = self.g, self.A
        stored = {g.start}
        direct = {}     # nt -> set of nts whose value is passed through
        uses = set()    # nts stored as attribute / list element somewhere

        def scan(v, top):
            if isinstance(v, Slot):
                if not g.is_terminal(v.sym):
                    (direct.setdefault(top, set()) if top else uses).add(
                        v.sym) if top else uses.add(v.sym)
            elif isinstance(v, NodeVal):
                for a in v.attrs.values():
                    scan(a, None)
            elif isinstance(v, ListVal):
                if v.base is not None:
                    scan(v.base, top)
                for _, p2 in v.parts:
                    scan(p2, None if top is None else top)
            # AttrOf / Const: consumed
        for oc in A.all_outcomes():
            if oc.status != 'ok':
                continue
            v = oc.value
            if isinstance(v, Slot):
                if not g.is_terminal(v.sym):
                    direct.setdefault(oc.prod.lhs, set()).add(v.sym)
            elif isinstance(v, ListVal):
                # elements of a list value are stored iff the list is
                for kind, p2 in ([('splice', v.base)] if v.base is not None
                                 else []) + list(v.parts):
                    if isinstance(p2, Slot) and not g.is_terminal(p2.sym):
                        direct.setdefault(oc.prod.lhs, set()).add(p2.sym)
                    elif isinstance(p2, (NodeVal, ListVal)):
                        scan(p2, None)
            elif isinstance(v, NodeVal):
                scan(v, None)
            for node in oc.nodes:
                if node is not v:
                    scan(node, None)
        stored |= uses
        changed = True
        while changed:
            changed = False
            for lhs, subs in direct.items():
                if lhs in stored:
                    for s2 in subs:
                        if s2 not in stored:
                            stored.add(s2)
                            changed = True
        return stored

    def _all_built(self):
        out = set()
        for oc in self.A.all_outcomes():
            for node in oc.nodes:
                out.add(node.cls)
        return out

    # -- token classes ---------------------------------------------------

    def tokclass_of_terminal(self, t):
        lex = self.lm.lexeme(t)
        if lex is not None:
            return ('lit', lex)
        return ('cls', t)

    def str_classes(self, v):
        """token classes a string-valued attribute value can print"""
        if isinstance(v, Const):
            if isinstance(v.value, str):
                return {('lit', v.value)}
            return set()
        if isinstance(v, Slot):
            if self.g.is_terminal(v.sym):
                return {self.tokclass_of_terminal(v.sym)}
            out = set()
            for k in self.P.kinds(v):
                if k[0] == 'str':
                    out.add(self.tokclass_of_terminal(k[1]))
            return out
        if isinstance(v, AttrOf) and v.attr == 'value' and isinstance(
                v.base, Slot):
            # PropIdentifier(p[1].value): the text of the child identifier
            out = set()
            for k in self.P.kinds(v.base):
                if k[0] == 'node':
                    for vv in self.attr_values_all.get((k[1], 'value'), []):
                        out |= self.str_classes(vv)
            return self.collapse(out)
        return set()

    def collapse(self, classes):
        """keyword spellings next to the identifier class are members of
        the identifier language: one class"""
        if ('cls', 'ID') in classes:
            kws = {k.lower() for k in self.lm.keywords}
            rest = {c for c in classes
                    if not (c[0] == 'lit' and c[1] in kws)}
            return rest
        return classes

    # -- child kinds -----------------------------------------------------

    def value_shape(self, v):
        """('node', kinds, maybe_none) | ('list', elem kinds, maybe_empty)
        | ('str', classes) | ('none',)"""
        if isinstance(v, NodeVal):
            return ('node', {v.cls}, False)
        if isinstance(v, Const):
            if v.value is None or v.value == []:
                return ('none',)
            return ('str', self.str_classes(v))
        if isinstance(v, AttrOf):
            return ('str', self.str_classes(v))
        if isinstance(v, ListVal):
            kinds = set()
            nonempty = False
            parts = []
            if v.base is not None:
                parts.append(('splice', v.base))
            parts.extend(v.parts)
            for kind, p in parts:
                if kind == 'item':
                    nonempty = True
                    sh = self.value_shape(p)
                    if sh[0] == 'node':
                        kinds |= sh[1]
                    else:
                        raise AnalysisError('list item %r is not a node'
                                            % (p,))
                else:
                    if isinstance(p, Slot):
                        kinds |= {k[1] for k in self.A.elem_kinds.get(
                            p.sym, ()) if k[0] == 'node'}
                        if not self.P.maybe_empty_list(p):
                            nonempty = True
                    elif isinstance(p, ListVal):
                        sh = self.value_shape(p)
                        kinds |= sh[1]
                        nonempty = nonempty or not sh[2]
            return ('list', kinds, not nonempty)
        if isinstance(v, Slot):
            if self.g.is_terminal(v.sym):
                return ('str', self.str_classes(v))
            ks = self.P.kinds(v)
            if ks and all(k[0] == 'str' for k in ks):
                return ('str', self.str_classes(v))
            if any(k[0] == 'list' for k in ks):
                kinds = {k[1] for k in self.A.elem_kinds.get(v.sym, ())
                         if k[0] == 'node'}
                empty = self.P.maybe_empty_list(v) or ('none',) in ks
                return ('list', kinds, empty)
            nodes = {k[1] for k in ks if k[0] == 'node'}
            if not nodes:
                return ('none',)
            return ('node', nodes, ('none',) in ks)
        raise AnalysisError('unsupported attribute value %r' % (v,))

    def attr_shape(self, cls, attr):
        """merged shape of an attribute over all construction sites"""
        vals = self.attr_values.get((cls, attr))
        if vals is None:
            # inherited / defaulted attribute never set by the parser
            return ('none',)
        kind = None
        kinds = set()
        classes = set()
        maybe = False
        roles = set()
        for v in vals:
            sh = self.value_shape(v)
            if sh[0] == 'none':
                maybe = True
                continue
            if kind is None:
                kind = sh[0]
            elif kind != sh[0]:
                raise AnalysisError('%s.%s holds %s and %s' % (
                    cls, attr, kind, sh[0]))
            if sh[0] == 'str':
                classes |= sh[1]
            else:
                kinds |= sh[1]
                maybe = maybe or sh[2]
            if isinstance(v, Slot) and v.sym == 'statement':
                roles.add('body')
            elif isinstance(v, NodeVal):
                roles.add('synth')
        if kind is None:
            return ('none',)
        if kind == 'str':
            return ('str', classes, maybe)
        return (kind, kinds, maybe, roles)

    # -- definitions -> regexes ------------------------------------------

    def kind_name(self, cls, role):
        if cls == 'EmptyStatement' and role:
            return 'EmptyStatement@' + role
        return cls

    def child(self, kinds, role=None):
        return alt(*[ref(self.kind_name(k, role)) for k in sorted(kinds)])

    def _build(self):
        todo = []
        for cls in self.kinds:
            if cls in self.D.defs:
                todo.append((cls, cls, None))
        for role in ('body', 'synth', 'list'):
            if 'EmptyStatement' in self.D.defs:
                todo.append(('EmptyStatement@' + role, 'EmptyStatement',
                             role))
        for name, cls, role in todo:
            self.rules[name] = self.seq_regex(self.D.defs[cls], cls, role)
        # comments
        if self.comments:
            for c in ('Comments', 'LineComment', 'BlockComment'):
                if c not in self.D.defs:
                    raise AnalysisError('definition %s vanished' % c)
            self.rules['LineComment'] = self.seq_regex(
                self.D.defs['LineComment'], 'LineComment', None)
            self.rules['BlockComment'] = self.seq_regex(
                self.D.defs['BlockComment'], 'BlockComment', None)
            self.rules['Comments'] = seq(
                alt(ref('LineComment'), ref('BlockComment')),
                star(alt(ref('LineComment'), ref('BlockComment'))))

    def seq_regex(self, terms, cls, role, assume=None):
        """regex of a term sequence.  The presence of an attribute that is
        sometimes empty is decided once per definition (all Optional /
        Attr terms on the same attribute agree): case split."""
        assume = dict(assume or {})
        undecided = []
        for t in self._walk(terms):
            if t.kind in ('optional', 'attr', 'operator', 'join') and \
                    t.attr and isinstance(t.attr, str) and \
                    t.cls != 'CommentsAttr' and t.attr not in assume:
                sh = self.attr_shape(cls, t.attr)
                if sh[0] in ('node', 'str', 'list') and sh[2] and \
                        t.attr not in undecided:
                    undecided.append(t.attr)
        # only attributes used by an Optional need correlation
        opt_attrs = {t.attr for t in self._walk(terms)
                     if t.kind == 'optional'}
        undecided = [a for a in undecided if a in opt_attrs]
        if undecided:
            if len(undecided) > 3:
                raise AnalysisError('%s: too many optional attributes'
                                    % cls)
            alts = []
            import itertools
            for combo in itertools.product((True, False),
                                           repeat=len(undecided)):
                a2 = dict(assume)
                a2.update(zip(undecided, combo))
                alts.append(self.seq_regex(terms, cls, role, a2))
            return alt(*alts)
        self._assume = assume
        try:
            return seq(*[self.term_regex(t, cls, role) for t in terms])
        finally:
            self._assume = {}

    def _walk(self, terms):
        for t in terms:
            yield t
            if t.seq and t.kind == 'optional':
                for x in self._walk(t.seq):
                    yield x

    def term_regex(self, t, cls, role):
        if t.kind == 'struct':
            return None
        if t.kind == 'layout':
            if t.name not in self.handled:
                return None
            return mark(t.name, cls, role)
        if t.kind == 'text':
            v = t.value
            parts = []
            if v != v.lstrip():
                parts.append(mark('HardSpace', cls, role))
            parts.append(tok(('lit', v.strip())))
            if v != v.rstrip():
                parts.append(mark('HardSpace', cls, role))
            return seq(*parts)
        if t.kind == 'operator' and not t.attr:
            return tok(('lit', t.value))
        if t.kind in ('attr', 'operator'):
            if t.cls == 'CommentsAttr':
                if self.comments:
                    return opt(ref('Comments'))
                return None
            if t.deferrable in ('LineComment', 'BlockComment'):
                return tok(('comment', t.deferrable))
            attr = 'value' if t.deferrable in ('Resolve', 'Literal') \
                else t.attr
            return self.attr_regex(cls, attr, t)
        if t.kind == 'optional':
            sh = self.attr_shape(cls, t.attr)
            if sh[0] == 'none':
                return None
            assume = getattr(self, '_assume', {})
            if t.attr in assume:
                if not assume[t.attr]:
                    return None
                saved = dict(assume)
                r = seq(*[self.term_regex(x, cls, role) for x in t.seq])
                self._assume = saved
                return r
            inner = self.seq_regex(t.seq, cls, role, assume)
            self._assume = assume
            maybe = sh[2]
            return opt(inner) if maybe else inner
        if t.kind == 'join':
            return self.join_regex(t, cls, role)
        if t.kind == 'elisiontoken':
            return tok(('elision',))
        if t.kind == 'elisionjoin':
            return self.elision_regex(t, cls, role)
        raise AnalysisError('unknown term %r' % (t,))

    def attr_regex(self, cls, attr, t):
        sh = self.attr_shape(cls, attr)
        if sh[0] == 'none':
            return None
        assume = getattr(self, '_assume', {})
        if attr in assume:
            if not assume[attr]:
                return None
            sh = sh[:2] + (False,) + sh[3:]
        if sh[0] == 'str':
            r = alt(*[tok(c) for c in sorted(sh[1], key=repr)])
            return opt(r) if sh[2] else r
        if sh[0] == 'list':
            raise AnalysisError('%s: Attr(%s) on a list attribute' % (
                cls, attr))
        kinds, maybe, roles = sh[1], sh[2], sh[3]
        role = 'body' if 'body' in roles else (
            'synth' if 'synth' in roles else None)
        r = self.child(kinds, role)
        return opt(r) if maybe else r

    def join_regex(self, t, cls, role):
        if t.deferrable == 'Iter':
            _, shape = self.am.children_shape(cls)
            parts = []
            for kind, attr in shape:
                sh = self.attr_shape(cls, attr)
                if sh[0] == 'none':
                    continue
                parts.append((kind, sh))
            if len(parts) != 1 or parts[0][0] != 'many':
                if not parts:
                    return None
                raise AnalysisError(
                    '%s: JoinAttr(Iter()) over a mixed children() shape is '
                    'not modelled' % cls)
            sh = parts[0][1]
        else:
            sh = self.attr_shape(cls, t.attr)
        if sh[0] == 'none':
            return None
        if sh[0] != 'list':
            raise AnalysisError('%s: JoinAttr over a non-list attribute %s'
                                % (cls, t.attr))
        kinds, maybe = sh[1], sh[2]
        if not kinds:
            return None
        elem = self.child(kinds, 'list')
        sep = self.seq_regex(t.seq or [], cls, role)
        r = seq(elem, star(seq(sep, elem)))
        return opt(r) if maybe else r

    def elision_regex(self, t, cls, role):
        sh = self.attr_shape(cls, t.attr)
        if sh[0] == 'none':
            return None
        kinds = set(sh[1])
        exprs = kinds - {'Elision'}
        X = self.child(exprs) if exprs else None
        L = ref('Elision') if 'Elision' in kinds else None
        value = self.seq_regex(t.seq or [], cls, role)
        comma = tok(('elision',))   # the separator is a surrogate Elision(1)
        # automaton over item types, transcribed from ElisionJoinAttr:
        #   X -> X : sep value   X -> L : sep     L -> X : value   L -> L : -
        # expressed as a right-linear system solved by two mutually
        # recursive rules
        self.rules[cls + '#afterX'] = alt(
            EPS,
            seq(comma, value, X, ref(cls + '#afterX')) if X else None,
            seq(comma, L, ref(cls + '#afterL')) if L else None)
        self.rules[cls + '#afterL'] = alt(
            EPS,
            seq(value, X, ref(cls + '#afterX')) if X else None,
            seq(L, ref(cls + '#afterL')) if L else None)
        first = alt(seq(X, ref(cls + '#afterX')) if X else None,
                    seq(L, ref(cls + '#afterL')) if L else None)
        return opt(first) if sh[2] else first

    # -- summaries -------------------------------------------------------

    def analyse(self, transparent, root='ES5Program', maxrun=8):
        """windows {(tokA|'START', run, tokB|'END')} where run consists of
        marks whose name is in `transparent`; any other mark is a barrier
        (it always prints something that separates the two tokens).
        Exact FIRST/LAST/NULL fixpoint over the print grammar."""
        rules = {k: r for k, r in self.rules.items() if r is not None}
        for k in rules:
            self._check_refs(rules[k], rules)
        BAR = ('bar',)
        FIRST = {k: set() for k in rules}
        LAST = {k: set() for k in rules}
        NULL = {k: set() for k in rules}
        PAIRS = {k: set() for k in rules}

        def cat(a, b):
            r = a + b
            if len(r) > maxrun:
                raise AnalysisError(
                    'layout run longer than %d marks without a printed '
                    'brace/semicolon: %r' % (maxrun, r))
            return r

        def summ(r):
            tag = r[0]
            if tag == 'tok':
                return ({((), r[1])}, {(r[1], ())}, set(), set())
            if tag == 'mark':
                if r[1][0] in transparent:
                    return (set(), set(), {(r[1],)}, set())
                return ({((), BAR)}, {(BAR, ())}, set(), set())
            if tag == 'ref':
                k = r[1]
                return (FIRST[k], LAST[k], NULL[k], set())
            if tag == 'alt':
                f, l, n, p = set(), set(), set(), set()
                for x in r[1]:
                    a, b, c, d = summ(x)
                    f |= a
                    l |= b
                    n |= c
                    p |= d
                return f, l, n, p
            if tag == 'seq':
                f, l, n, p = set(), set(), {()}, set()
                for x in r[1]:
                    a, b, c, d = summ(x)
                    p |= d
                    for (ta, ra) in l:
                        if ta == BAR:
                            continue
                        for (rb, tb) in a:
                            if tb == BAR:
                                continue
                            p.add((ta, cat(ra, rb), tb))
                    nf = set(f)
                    for run in n:
                        for (rb, tb) in a:
                            nf.add((cat(run, rb) if tb != BAR else (), tb))
                    nl = set(b)
                    for (ta, ra) in l:
                        for run in c:
                            nl.add((ta, cat(ra, run) if ta != BAR else ()))
                    nn = set()
                    for r1 in n:
                        for r2 in c:
                            nn.add(cat(r1, r2))
                    f, l, n = nf, nl, nn
                return f, l, n, p
            if tag == 'star':
                a, b, c, d = summ(r[1])
                if any(c):
                    raise AnalysisError('repeated token-free layout body')
                n = {()}
                p = set(d)
                for (ta, ra) in b:
                    if ta == BAR:
                        continue
                    for (rb, tb) in a:
                        if tb == BAR:
                            continue
                        p.add((ta, cat(ra, rb), tb))
                return set(a), set(b), n, p
            raise AnalysisError('bad regex %r' % (r,))

        changed = True
        rounds = 0
        while changed:
            rounds += 1
            if rounds > 80:
                raise AnalysisError('print grammar fixpoint does not '
                                    'converge')
            changed = False
            for k, r in rules.items():
                f, l, n, p = summ(r)
                for tbl, val in ((FIRST, f), (LAST, l), (NULL, n),
                                 (PAIRS, p)):
                    if not val <= tbl[k]:
                        tbl[k] |= val
                        changed = True
        if root not in rules:
            raise AnalysisError('print grammar has no root %s' % root)
        seen = self.reachable_from(root, rules)
        self.reachable = seen
        windows = set()
        for k in seen:
            windows |= PAIRS[k]
        for (run, t) in FIRST[root]:
            if t != BAR:
                windows.add(('START', run, t))
        for (t, run) in LAST[root]:
            if t != BAR:
                windows.add((t, run, 'END'))
        return windows

    def reachable_from(self, root, rules):
        seen = {root}
        todo = [root]

        def refs(r, out):
            if r[0] == 'ref':
                out.add(r[1])
            elif r[0] in ('alt', 'seq'):
                for x in r[1]:
                    refs(x, out)
            elif r[0] == 'star':
                refs(r[1], out)
        while todo:
            k = todo.pop()
            out = set()
            refs(rules[k], out)
            for x in out:
                if x not in seen and x in rules:
                    seen.add(x)
                    todo.append(x)
        return seen

    # -- next-symbol / follow analysis (for R02.3) -------------------------

    def follow_contexts(self, root='ES5Program'):
        """For every kind K: the set of (next symbol, after) pairs that can
        follow a K node in the stream, where next symbol is the next
        handled mark (name), 'T' (a token) or '$' (end of stream) and after
        is 'none' (no token follows until the end of the stream) or 'tok'.
        Exact FIRST/FOLLOW fixpoint over the print grammar."""
        rules = {k: r for k, r in self.rules.items() if r is not None}
        # H(r): set of (first symbol | None for empty, kind) with kind in
        #   'tf' (token free expansion) / 'tok' (expansion with a token)
        H = {k: set() for k in rules}

        def heads(r):
            tag = r[0]
            if tag == 'tok':
                return {('T', 'tok')}
            if tag == 'mark':
                return {(r[1][0], 'tf')}
            if tag == 'ref':
                return H[r[1]]
            if tag == 'alt':
                out = set()
                for x in r[1]:
                    out |= heads(x)
                return out
            if tag == 'star':
                return heads(r[1]) | {(None, 'tf')}
            if tag == 'seq':
                out = {(None, 'tf')}
                for x in r[1]:
                    hx = heads(x)
                    nxt = set()
                    for (s1, k1) in out:
                        for (s2, k2) in hx:
                            sym = s1 if s1 is not None else s2
                            kind = 'tok' if 'tok' in (k1, k2) else 'tf'
                            nxt.add((sym, kind))
                    out = nxt
                return out
            raise AnalysisError('bad regex')
        changed = True
        while changed:
            changed = False
            for k, r in rules.items():
                h = heads(r)
                if not h <= H[k]:
                    H[k] |= h
                    changed = True
        self.HEADS = H
        self._heads = heads
        # FOLLOW
        FOL = {k: set() for k in rules}
        FOL[root].add(('$', 'none'))

        def combine(hs, fol):
            """heads of (rest) followed by follow set"""
            out = set()
            for (s1, k1) in hs:
                if k1 == 'tok':
                    out.add((s1, 'tok'))
                else:
                    for (s2, a2) in fol:
                        out.add((s1 if s1 is not None else s2, a2))
            return out

        def walk(r, fol_after):
            """propagate: fol_after = contexts following r"""
            tag = r[0]
            if tag == 'ref':
                if not fol_after <= FOL[r[1]]:
                    FOL[r[1]] |= fol_after
                    return True
                return False
            ch = False
            if tag == 'alt':
                for x in r[1]:
                    ch |= walk(x, fol_after)
            elif tag == 'star':
                inner = combine(heads(r), fol_after)
                ch |= walk(r[1], inner | fol_after)
            elif tag == 'seq':
                items = r[1]
                for i, x in enumerate(items):
                    rest = ('seq', items[i + 1:])
                    ch |= walk(x, combine(heads(rest), fol_after))
            return ch
        changed = True
        rounds = 0
        while changed:
            rounds += 1
            if rounds > 80:
                raise AnalysisError('follow fixpoint does not converge')
            changed = False
            for k, r in rules.items():
                if FOL[k]:
                    changed |= walk(r, FOL[k])
        self.FOLLOW = FOL
        return FOL

    def precede_contexts(self, root='ES5Program'):
        """mirror image of follow_contexts: for every kind the set of
        symbols that can immediately precede it ('T', a mark name, '$' for
        the start of the stream)"""
        def rev(r):
            if r[0] == 'seq':
                return ('seq', tuple(rev(x) for x in reversed(r[1])))
            if r[0] == 'alt':
                return ('alt', tuple(rev(x) for x in r[1]))
            if r[0] == 'star':
                return ('star', rev(r[1]))
            return r
        saved = self.rules
        saved_follow = getattr(self, 'FOLLOW', None)
        try:
            self.rules = {k: (rev(r) if r is not None else None)
                          for k, r in saved.items()}
            out = self.follow_contexts(root)
        finally:
            self.rules = saved
            if saved_follow is not None:
                self.FOLLOW = saved_follow
        return out

    def _check_refs(self, r, rules):
        if r[0] == 'ref':
            if r[1] not in rules:
                raise AnalysisError(
                    'node type %s can be printed but has no definition'
                    % r[1])
        elif r[0] in ('alt', 'seq'):
            for x in r[1]:
                self._check_refs(x, rules)
        elif r[0] == 'star':
            self._check_refs(r[1], rules)
