#!/venv/bin/python
"""Evaluate the checks against the seeded changes kept under /verif/seeded.

  tools_seeded.py [--only NAME] [--candidates DIR] [--own-only]

--own-only runs only the check of the seed's own property (fast).

For every <dir>/<name>/patch.diff: copy /repo/src to a scratch directory,
apply the patch, run every check (quick tier) with --root <scratch>, record
which checks raise a VIOLATION (exit 1), which stop with ANALYSIS-ERROR
(exit 2) and which stay silent.  Nothing is ever applied to /repo."""
import json, os, shutil, subprocess, sys, tempfile, concurrent.futures as cf

HERE = os.path.dirname(os.path.abspath(__file__))
PY = '/venv/bin/python'
ALL = ['C01', 'C02', 'C03', 'C04', 'C05', 'C06', 'C07', 'C08', 'C09', 'C10',
       'C11',
       'C12', 'C13', 'C14', 'C15', 'C16', 'C17', 'C18', 'C19', 'C20']


def run_one(args):
    name, patch = args
    tmp = tempfile.mkdtemp(prefix='seeded_', dir=os.environ.get('TMPDIR', '/tmp'))
    try:
        shutil.copytree('/repo/src', os.path.join(tmp, 'src'),
                        ignore=shutil.ignore_patterns('__pycache__', 'lextab_*', 'yacctab_*'))
        r = subprocess.run(['patch', '-p1', '-s', '-d', tmp, '-i', patch],
                           capture_output=True, text=True)
        if r.returncode != 0:
            return name, {'error': 'patch failed: ' + r.stdout + r.stderr}
        res = {}
        own = name.split('/')[0].split('-')[0]
        own_only = bool(os.environ.get('VERIF_OWN_ONLY'))
        for c in ([own] if own_only and own in ALL else ALL):
            env = dict(os.environ, VERIF_NO_EVIDENCE='1')
            p = subprocess.run([PY, os.path.join(HERE, 'vp.py'), 'check', c,
                                '--root', tmp], capture_output=True, text=True, env=env)
            keys = [l.split(' ', 1)[1].strip() for l in p.stdout.splitlines()
                    if l.startswith('FINDING ')]
            err = [l for l in p.stdout.splitlines() if l.startswith('ANALYSIS-ERROR')]
            res[c] = {'rc': p.returncode, 'findings': keys[:6], 'error': err[:1]}
        return name, res
    finally:
        shutil.rmtree(tmp, ignore_errors=True)


def main():
    base = os.path.join(HERE, 'seeded')
    only = None
    args = sys.argv[1:]
    while args:
        a = args.pop(0)
        if a == '--only':
            only = args.pop(0)
        elif a == '--candidates':
            base = args.pop(0)
        elif a == '--own-only':
            os.environ['VERIF_OWN_ONLY'] = '1'
    jobs = []
    for root, dirs, files in sorted(os.walk(base)):
        if 'patch.diff' in files:
            name = os.path.relpath(root, base)
            if only and only not in name:
                continue
            jobs.append((name, os.path.join(root, 'patch.diff')))
    out = {}
    with cf.ProcessPoolExecutor(max_workers=12) as ex:
        for name, res in ex.map(run_one, jobs):
            out[name] = res
            if 'error' in res:
                print('%-14s %s' % (name, res['error'][:200]))
                continue
            own = name.split('/')[0].split('-')[0]
            hit = [c for c in ALL if c in res and res[c]['rc'] == 1]
            err = [c for c in ALL if c in res and res[c]['rc'] == 2]
            print('%-14s own=%s  VIOLATION by %-28s ANALYSIS-ERROR by %s' % (
                name, 'CAUGHT' if own in hit else ('err' if own in err else 'MISSED'),
                ','.join(hit) or '-', ','.join(err) or '-'))
            for c in hit[:3]:
                for k in res[c]['findings'][:2]:
                    print('      %s %s' % (c, k[:150]))
            for c in err[:2]:
                print('      %s %s' % (c, res[c]['error'][0][:200] if res[c]['error'] else ''))
    name = 'seeded_results.json' if base == os.path.join(HERE, 'seeded') else '%s_results.json' % os.path.basename(base.rstrip('/'))
    json.dump(out, open(os.path.join(HERE, name), 'w'), indent=1, sort_keys=True)


if __name__ == '__main__':
    main()
