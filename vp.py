#!/venv/bin/python
# -*- coding: utf-8 -*-
"""
Driver of the static checkers.

  vp.py check <ID> [--tier quick|thorough] [--root /repo]
  vp.py replay <path> [--root /repo]
  vp.py all [--tier quick] [--root /repo]

Exit status: 0 property held on every obligation (or only known findings),
1 with a line ``VIOLATION property=<id> replay=<path>``, 2 with a line
``ANALYSIS-ERROR ...`` when the analysis cannot interpret the tree.
"""
from __future__ import annotations

import argparse
import importlib
import json
import os
import sys
import traceback

HERE = os.path.dirname(os.path.abspath(__file__))
sys.path.insert(0, HERE)
sys.dont_write_bytecode = True

from engine.common import AnalysisError, Report  # noqa: E402
from engine.srcindex import SourceIndex  # noqa: E402

ALL = ['C01', 'C02', 'C03', 'C04', 'C05', 'C06', 'C07', 'C08', 'C09', 'C10',
       'C11',
       'C12', 'C13', 'C14', 'C15', 'C16', 'C17', 'C18', 'C19', 'C20']


def run_check(prop, tier, root, only_key=None):
    seed = int(os.environ.get('VERIF_SEED', '0') or 0)
    report = Report(prop, tier=tier, root=root, seed=seed)
    try:
        mod = importlib.import_module('checks.%s' % prop.lower())
        index = SourceIndex(root, report)
        mod.run(report, index, tier)
        for guard in report.deferred:
            guard()
        if only_key is not None:
            report.findings = [
                f for f in report.findings if f['key'] == only_key]
        return report.finish()
    except AnalysisError as e:
        if only_key is not None:
            report.findings = [
                f for f in report.findings if f['key'] == only_key]
        if report.new_findings():
            # a violation already established stays one
            return report.finish(partial=str(e))
        print('ANALYSIS-ERROR property=%s %s' % (prop, e))
        return 2
    except Exception:
        traceback.print_exc()
        print('ANALYSIS-ERROR property=%s internal error of the checker '
              '(see traceback)' % prop)
        return 2


def main(argv=None):
    ap = argparse.ArgumentParser()
    sub = ap.add_subparsers(dest='cmd', required=True)
    c = sub.add_parser('check')
    c.add_argument('prop')
    c.add_argument('--tier', default=os.environ.get('VERIF_TIER', 'quick'),
                   choices=['quick', 'thorough'])
    c.add_argument('--root', default='/repo')
    r = sub.add_parser('replay')
    r.add_argument('path')
    r.add_argument('--root', default='/repo')
    a = sub.add_parser('all')
    a.add_argument('--tier', default='quick')
    a.add_argument('--root', default='/repo')
    args = ap.parse_args(argv)

    if args.cmd == 'check':
        return run_check(args.prop.upper(), args.tier, args.root)
    if args.cmd == 'replay':
        with open(args.path) as fd:
            data = json.load(fd)
        os.environ['VERIF_NO_EVIDENCE'] = '1'
        key = data['finding']['key']
        print('replaying obligation %s of %s against %s' % (
            key, data['property'], args.root))
        return run_check(
            data['property'], data.get('tier', 'quick'), args.root,
            only_key=key)
    if args.cmd == 'all':
        worst = 0
        for prop in ALL:
            if not os.path.exists(os.path.join(
                    HERE, 'checks', prop.lower() + '.py')):
                continue
            rc = run_check(prop, args.tier, args.root)
            worst = max(worst, rc)
        return worst


if __name__ == '__main__':
    sys.exit(main())
